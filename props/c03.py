"""C03 - system-matrix rows independent of symmetries/caching/history: index and bookkeeping core (DESIGN.md section 6, C03)."""
import os
import re

from vlib.runner import Job
from vlib import extract

VERIF = os.path.dirname(os.path.dirname(os.path.abspath(__file__)))
HARNESS = os.path.join(VERIF, "harness", "c03.c")

KERNELS = [
    dict(name="K_cache_key", file="src/recon_buildblock/ProjMatrixByBin.cxx", func=r"ProjMatrixByBin::cache_key\(const Bin& bin\) const",
         cxx_name="ProjMatrixByBin::cache_key", c_header="CacheKey K_cache_key(const struct Bin* bin)", loops=0,
         rules=[(r"\bbin\.(axial_pos_num|tangential_pos_num|timing_pos_num)\(\)", r"bin->\1", 9),
                (r"static_cast<CacheKey>\(", "CAST(CacheKey, ", 13)]),
    dict(name="K_get_proj_matrix_elems_for_one_bin", file="src/include/stir/recon_buildblock/ProjMatrixByBin.inl",
         func=r"ProjMatrixByBin::get_proj_matrix_elems_for_one_bin\(ProjMatrixElemsForOneBin& probabilities, const Bin& bin\) const",
         cxx_name="ProjMatrixByBin::get_proj_matrix_elems_for_one_bin",
         c_header="void K_get_proj_matrix_elems_for_one_bin(const struct PM* self, struct Row* probabilities, const struct Bin* bin)",
         loops=0,
         rules=[(r"probabilities\.erase\(\);", "K_row_erase(probabilities);", 1),
                (r"Bin basic_bin = bin;", "struct Bin basic_bin = *bin;", 2),
                (r"unique_ptr<SymmetryOperation> symm_ptr = symmetries_sptr->find_symmetry_operation_from_basic_bin\(basic_bin\);",
                 "int symm_ptr = K_find_symmetry_operation_from_basic_bin(&basic_bin);", 2),
                (r"probabilities\.set_bin\(basic_bin\);", "K_row_set_bin(probabilities, &basic_bin);", 2),
                (r"probabilities\.set_bin\(bin\);", "K_row_set_bin(probabilities, bin);", 1),
                (r"get_cached_proj_matrix_elems_for_one_bin\(probabilities\) == Succeeded::no", "K_get_cached(self, probabilities) == 0", 3),
                (r"(?<!get_)(?<!K_)\bcalculate_proj_matrix_elems_for_one_bin\(probabilities\);", "K_calculate(self, probabilities);", 2),
                (r"proj_data_info_sptr->is_tof_data\(\)", "self->tof_data", 2),
                (r"\bapply_tof_kernel\(probabilities\);", "K_apply_tof_kernel(self, probabilities);", 2),
                (r"(?<!get_)\bcache_proj_matrix_elems_for_one_bin\(probabilities\);", "K_cache_insert(self, probabilities);", 2),
                (r"symm_ptr->transform_proj_matrix_elems_for_one_bin\(probabilities\);", "K_transform_row(symm_ptr, probabilities);", 2),
                (r"\bthis->", "self->", None),
                (r"(?<![\w>.])(cache_stores_only_basic_bins|cache_disabled|tof_enabled)\b", r"self->\1", (1, 99))]),
]



# ---------------- part 2: symmetry bookkeeping and the bin transforms of the symmetry operations ----------------
HARNESS_I = os.path.join(VERIF, "harness", "c03i.c")
HARNESS_B = os.path.join(VERIF, "harness", "c03b.c")
REPO_ = os.environ.get("VERIF_REPO", "/repo")
DS_INL = "src/include/stir/recon_buildblock/DataSymmetriesForBins_PET_CartesianGrid.inl"
OPS_INL = "src/include/stir/recon_buildblock/SymmetryOperations_PET_CartesianGrid.inl"
DS = r"DataSymmetriesForBins_PET_CartesianGrid::"
SYMMEMBERS = (r"(?<![\w>.])(do_symmetry_90degrees_min_phi|do_symmetry_180degrees_min_phi|do_symmetry_swap_segment|do_symmetry_swap_s|do_symmetry_shift_z|num_views)\b",
              r"self->\1", (1, 99))
CYL = (r'if \(proj_data_info_ptr->get_scanner_ptr\(\)->get_scanner_geometry\(\) == "Cylindrical"\)', "if (1) /* cylindrical branch */", 1)
CYL_SPAN = (r'if \(proj_data_info_ptr->get_scanner_ptr\(\)->get_scanner_geometry\(\) == "Cylindrical"\)',
            r'\n    \}(?=\s*(?://[^\n]*\n\s*)*if \(proj_data_info_ptr->get_scanner_ptr\(\)->get_scanner_geometry\(\) == "BlocksOnCylindrical"\))')
NEWOPS = [(r"return new SymmetryOperation_PET_CartesianGrid_z_shift\(([^;]*)\);", r"return MKOP2(OP_z_shift, \1);", (1, 3)),
          (r"return new SymmetryOperation_PET_CartesianGrid_(\w+)\(([^;]*)\);", r"return MKOPN(OP_\1, \2);", (5, 40)),
          (r"return new TrivialSymmetryOperation\(\);", "return MKOP_TRIVIAL();", (1, 3)),
          (r"\bfind_transform_z\(", "K_find_transform_z(self, ", 1), (r"num_planes_per_axial_pos\[segment_num\]", "K_num_planes_per_axial_pos(self, segment_num)", 1)]
FALLTHROUGH = '__CPROVER_assert(0, "the cylindrical branch returns on every path"); return MKOP_TRIVIAL();'
BINREF = (r"(?<![\w.>*&])(segment_num|view_num|axial_pos_num|tangential_pos_num|timing_pos_num)\b", r"(*\1)", (5, 60))


def _op_classes():
    try:
        src = extract.strip_comments(open(os.path.join(REPO_, OPS_INL)).read())
    except OSError:
        return []
    return re.findall(r"SymmetryOperation_PET_CartesianGrid_(\w+)::transform_bin_coordinates\(Bin& b\) const", src)


OP_CLASSES = _op_classes()
KERNELS_B = [
    dict(name="K_find_basic_vs", file=DS_INL, cxx_name=DS[:-2].replace("\\", "") + "::find_basic_view_segment_numbers",
         func=DS + r"find_basic_view_segment_numbers\(ViewSegmentNumbers& v_s\) const", c_header="_Bool K_find_basic_vs(const struct SYM* self, struct VS* v_s)",
         loops=0, rules=[(r"v_s\.segment_num\(\)", "v_s->segment_num", (3, 5)), (r"v_s\.view_num\(\)", "v_s->view_num", (10, 20)), SYMMEMBERS]),
    dict(name="K_find_sym_op_bin0", file=DS_INL, cxx_name="DataSymmetriesForBins_PET_CartesianGrid::find_sym_op_bin0 (cylindrical branch)",
         func=DS + r"find_sym_op_bin0\(int segment_num, int view_num, int axial_pos_num\) const", span=CYL_SPAN,
         c_header="struct OP K_find_sym_op_bin0(const struct SYM* self, int segment_num, int view_num, int axial_pos_num)", loops=0,
         rules=[CYL] + NEWOPS + [SYMMEMBERS], post=FALLTHROUGH),
    dict(name="K_find_sym_op_general_bin", file=DS_INL, cxx_name="DataSymmetriesForBins_PET_CartesianGrid::find_sym_op_general_bin (cylindrical branch)",
         func=DS + r"find_sym_op_general_bin\(int s, int segment_num, int view_num, int axial_pos_num\) const", span=CYL_SPAN,
         c_header="struct OP K_find_sym_op_general_bin(const struct SYM* self, int s, int segment_num, int view_num, int axial_pos_num)", loops=0,
         rules=[CYL] + NEWOPS + [SYMMEMBERS], post=FALLTHROUGH),
    dict(name="K_find_basic_bin", file=DS_INL, cxx_name="DataSymmetriesForBins_PET_CartesianGrid::find_basic_bin(int&,...) (cylindrical branch)",
         func=DS + r"find_basic_bin\(\s*int& segment_num, int& view_num, int& axial_pos_num, int& tangential_pos_num, int& timing_pos_num\) const",
         span=(r"ViewSegmentNumbers v_s\(view_num, segment_num\);", r"return change;"),
         c_header="_Bool K_find_basic_bin(const struct SYM* self, int* segment_num, int* view_num, int* axial_pos_num, int* tangential_pos_num, int* timing_pos_num)",
         loops=0, pre="_Bool change = 0;",
         rules=[BINREF, (r"ViewSegmentNumbers v_s\(\(\*view_num\), \(\*segment_num\)\);", "struct VS v_s; v_s.view_num = *view_num; v_s.segment_num = *segment_num;", 1),
                (r"find_basic_view_segment_numbers\(v_s\)", "K_find_basic_vs(self, &v_s)", 1), (r"v_s\.(view_num|segment_num)\(\)", r"v_s.\1", 2), SYMMEMBERS]),
    dict(name="K_find_symmetry_operation_from_basic_bin_real", file=DS_INL, cxx_name="DataSymmetriesForBins_PET_CartesianGrid::find_symmetry_operation_from_basic_bin",
         func=DS + r"find_symmetry_operation_from_basic_bin\(Bin& b\) const",
         c_header="struct OP K_find_symmetry_operation_from_basic_bin_real(const struct SYM* self, struct Bin* b)", loops=0,
         rules=[(r"unique_ptr<SymmetryOperation> sym_op\(", "struct OP sym_op = (", 1),
                (r"\bfind_sym_op_bin0\(", "K_find_sym_op_bin0(self, ", 1), (r"\bfind_sym_op_general_bin\(", "K_find_sym_op_general_bin(self, ", 1),
                (r"\bb\.(segment_num|view_num|axial_pos_num|tangential_pos_num|timing_pos_num)\(\)", r"b->\1", 8),
                (r"(?<![\w.])find_basic_bin\(b\);", "K_find_basic_bin(self, &b->segment_num, &b->view_num, &b->axial_pos_num, &b->tangential_pos_num, &b->timing_pos_num);", 1)]),
]
for _c in OP_CLASSES:
    KERNELS_B.append(dict(name="K_op_%s_bin" % _c, file=OPS_INL, cxx_name="SymmetryOperation_PET_CartesianGrid_%s::transform_bin_coordinates" % _c,
                          func=r"SymmetryOperation_PET_CartesianGrid_%s::transform_bin_coordinates\(Bin& b\) const" % _c,
                          c_header="void K_op_%s_bin(const struct OP* op, struct Bin* b)" % _c, loops=0,
                          rules=[(r"\bb\.(segment_num|view_num|axial_pos_num|tangential_pos_num|timing_pos_num)\(\)", r"b->\1", (1, 20)),
                                 (r"(?<![\w>.])(axial_pos_shift|view180|z_shift|q)\b", r"op->\1", (1, 20))]))
# image side of the 16 operation classes: transform_image_coordinates (c[1] = z, c[2] = y, c[3] = x)
KERNELS_I = []
for _c in OP_CLASSES:
    KERNELS_I.append(dict(name="K_op_%s_img" % _c, file=OPS_INL, cxx_name="SymmetryOperation_PET_CartesianGrid_%s::transform_image_coordinates" % _c,
                          func=r"SymmetryOperation_PET_CartesianGrid_%s::transform_image_coordinates\(BasicCoordinate<3, int>& c\) const" % _c,
                          c_header="void K_op_%s_img(const struct OP* op, struct C3* c)" % _c, loops=0, contract_alias="K_op_img",
                          rules=[(r"\bc\[1\]", "c->z", (1, 6)), (r"\bc\[2\]", "c->y", (0, 6)), (r"\bc\[3\]", "c->x", (0, 6)),
                                 (r"(?<![\w>.])(z_shift|q)\b", r"op->\1", (1, 6))]))
# the bundle of tangential rays of one bin (ProjMatrixByBinUsingRayTracing): offset of the first ray
KERNELS_R = [dict(name="K_rt_first_ray", file="src/recon_buildblock/ProjMatrixByBinUsingRayTracing.cxx",
                  cxx_name="ProjMatrixByBinUsingRayTracing::calculate_proj_matrix_elems_for_one_bin: position of the first of the tangential rays (statement kernel)",
                  func=r"ProjMatrixByBinUsingRayTracing::calculate_proj_matrix_elems_for_one_bin\(ProjMatrixElemsForOneBin& lor\) const",
                  span=(r"float current_s_in_mm = ", r";"), c_header="float K_rt_first_ray(const float s_in_mm, const float s_inc, const int num_tangential_LORs)", loops=0,
                  rules=[(r"float current_s_in_mm = ", "const float K_first = ", 1)], post="return K_first;")]
# the constructor of DataSymmetriesForBins_PET_CartesianGrid: which symmetry switches survive (the class invariant SYM_VALID that
# lemma_symmetry and the C06 kernels assume). Float / dynamic_cast conditions become nondeterministic booleans.
DS_CXX = "src/recon_buildblock/DataSymmetriesForBins_PET_CartesianGrid.cxx"
CTOR = r"DataSymmetriesForBins_PET_CartesianGrid::DataSymmetriesForBins_PET_CartesianGrid\([^)]*\)"
FLOATCOND = (r"fabs\((?:[^()]|\((?:[^()]|\((?:[^()]|\([^()]*\))*\))*\))*\)\s*>\s*[\d.]+(?:E-?\d+)?F", "K_float_cond()", None)
KERNELS_C = [
    dict(name="K_sym_ctor_init", file=DS_CXX, cxx_name="DataSymmetriesForBins_PET_CartesianGrid constructor: member initialisers + the block for subset data",
         func=CTOR, init_list=True, span=(r"if \(!is_null_ptr\(subset_proj_data_info_ptr\)\)", r"do_symmetry_180degrees_min_phi = false;\s*\}"),
         c_header="void K_sym_ctor_init(struct SYM* self, const _Bool do_symmetry_90degrees_min_phi_v, const _Bool do_symmetry_180degrees_min_phi_v, const _Bool do_symmetry_swap_segment_v, "
                  "const _Bool do_symmetry_swap_s_v, const _Bool do_symmetry_shift_z_v)", loops=0,
         rules=[(r"self->DataSymmetriesForBins = proj_data_info_ptr;", "", 1), (r"self->do_symmetry_shift_z = do_symmetry_shift_z;", "self->do_symmetry_shift_z = do_symmetry_shift_z_v;", 1),
                (r"!is_null_ptr\(subset_proj_data_info_ptr\)", "g_is_subset", 1),
                (r"if \(is_null_ptr\(\s*dynamic_cast<const ProjDataInfoCylindrical\*>\(subset_proj_data_info_ptr->get_original_proj_data_info_sptr\(\)\.get\(\)\)\)\)\s*error\([^;]*;",
                 "if (K_float_cond()) K_THROW_VOID;", 1),
                (r'warning\("[^"]*"\);', "(void)0;", 1), SYMMEMBERS]),
    dict(name="K_sym_ctor_flags", file=DS_CXX, cxx_name="DataSymmetriesForBins_PET_CartesianGrid constructor, cylindrical branch: from the voxel-size test to the last switch-off",
         func=CTOR, span=(r"if \(fabs\(cartesian_grid_info_ptr->get_grid_spacing\(\)\[2\]", r"= this->do_symmetry_swap_s = false;\s*\}\s*\}"),
         c_header="void K_sym_ctor_flags(struct SYM* self)", loops=1,
         rules=[(r"num_views = proj_data_info_ptr->get_num_views\(\);", "num_views = g_pdi_num_views;", 1), FLOATCOND,
                (r"min\(proj_data_info_ptr->get_max_segment_num\(\), -proj_data_info_ptr->get_min_segment_num\(\)\)", "g_num_segment_pairs", 1),
                (r'\berror\((?:"[^"]*"|[^;"])*\);', "K_THROW_VOID;", 3), (r'\binfo\("[^"]*"\);', "(void)0;", (4, 6)),
                (r"proj_data_info_ptr->is_tof_data\(\)", "g_is_tof", 1), (r"\bthis->", "self->", (10, 30)), SYMMEMBERS]),
]
# ---- set_up / clear_cache: after (re-)set-up for another geometry nothing cached for the old one survives ----
PMB = "src/recon_buildblock/ProjMatrixByBin.cxx"
PMRT = "src/recon_buildblock/ProjMatrixByBinUsingRayTracing.cxx"
RT_SETUP = r"ProjMatrixByBinUsingRayTracing::set_up\(\s*const shared_ptr<const ProjDataInfo>& proj_data_info_sptr_v,\s*const shared_ptr<const DiscretisedDensity<3, float>>& density_info_sptr_v[^)]*\)"
KERNELS_S = [
    dict(name="K_pm_clear_cache", file=PMB, cxx_name="ProjMatrixByBin::clear_cache", func=r"ProjMatrixByBin::clear_cache\(\) const", c_header="void K_pm_clear_cache(const struct CACHE* self)", loops=2,
         rules=[(r"this->cache_collection\.get_(min|max)_index\(\)", r"self->\1_view", 2), (r"this->cache_collection\[i\]\.get_(min|max)_index\(\)", r"BUCKET_ROW_\1(self, i)", 2),
                (r"this->cache_collection\[i\]\[j\]\.clear\(\);", "BUCKET_CLEAR(self, i, j);", 1)]),
    dict(name="K_pm_set_up_cache", file=PMB, cxx_name="ProjMatrixByBin::set_up: re-creation of the cache (statement kernel)",
         func=r"ProjMatrixByBin::set_up\(const shared_ptr<const ProjDataInfo>& proj_data_info_sptr_v,\s*const shared_ptr<const DiscretisedDensity<3, float>>& density_info_sptr_v[^)]*\)",
         span=(r"(?:this->cache_collection\.recycle\(\);\s*)?this->cache_collection\.resize\(min_view_num, max_view_num\);", r"this->cache_collection\[view_num\]\.resize\(min_segment_num, max_segment_num\);.*?\n    \}"),
         c_header="void K_pm_set_up_cache(struct CACHE* self, const int min_view_num, const int max_view_num, const int min_segment_num, const int max_segment_num)", loops=1,
         rules=[(r"this->cache_collection\.recycle\(\);", "CACHE_RECYCLE(self);", (0, 1)), (r"this->cache_collection\.resize\(min_view_num, max_view_num\);", "CACHE_RESIZE_OUTER(self, min_view_num, max_view_num);", 1),
                (r"this->cache_collection\[view_num\]\.resize\(min_segment_num, max_segment_num\);", "CACHE_RESIZE_ROW(self, view_num, min_segment_num, max_segment_num);", 1)]),
    dict(name="K_pmrt_set_up_skip", file=PMRT, cxx_name="ProjMatrixByBinUsingRayTracing::set_up: the 'already set up with the same characteristics' block (statement kernel)",
         func=RT_SETUP, span=(r"if \(this->already_setup\)\s*\{", r"\n    \}"), c_header="void K_pmrt_set_up_skip(struct CACHE* self)", loops=0,
         rules=[(r"this->already_setup", "self->already_setup", 1),
                (r"\*this->proj_data_info_sptr == \*proj_data_info_sptr_v && this->voxel_size == image_info_ptr->get_voxel_size\(\)\s*&& this->origin == image_info_ptr->get_origin\(\)",
                 "g_same_pdi && g_same_voxel_size && g_same_origin", 1),
                (r"CartesianCoordinate3D<int> new_(min|max)_index;", "", 2), (r"image_info_ptr->get_regular_range\(new_min_index, new_max_index\);", "", 1),
                (r"this->max_index == new_max_index && this->min_index == new_min_index", "g_same_max_index && g_same_min_index", 1),
                (r'info\("[^"]*", 3\);', "(void)0;", 1), (r"\breturn;", "{ g_skipped = 1; return; }", (1, 2)), (r"this->clear_cache\(\);", "K_pm_clear_cache(self);", (0, 1))]),
    dict(name="K_pmrt_set_up_tail", file=PMRT, cxx_name="ProjMatrixByBinUsingRayTracing::set_up: the last statements (statement kernel)", func=RT_SETUP,
         span=(r"this->already_setup = true;", r"\Z"), c_header="void K_pmrt_set_up_tail(struct CACHE* self)", loops=0,
         rules=[(r"this->already_setup = true;", "self->already_setup = 1;", 1), (r"this->clear_cache\(\);", "K_pm_clear_cache(self);", (0, 1))]),
]
KERNELS += KERNELS_B + KERNELS_I + KERNELS_R + KERNELS_C + KERNELS_S

# ---- setters: already_setup stays honest (contracts/c03t.h) ----
PMRT_PARAMS = [('restrict_to_cylindrical_FOV', '_Bool'), ('num_tangential_LORs', 'int'), ('use_actual_detector_boundaries', '_Bool'), ('do_symmetry_90degrees_min_phi', '_Bool'), ('do_symmetry_180degrees_min_phi', '_Bool'), ('do_symmetry_swap_segment', '_Bool'), ('do_symmetry_swap_s', '_Bool'), ('do_symmetry_shift_z', '_Bool')]
KERNELS_T = [dict(name="K_pmrt_set_" + n, file=PMRT, cxx_name="ProjMatrixByBinUsingRayTracing::set_" + n,
                  func=r"ProjMatrixByBinUsingRayTracing::set_%s\((?:bool|int) val\)" % n, c_header="void K_pmrt_set_%s(struct PMRT* self, %s val)" % (n, t), loops=0,
                  rules=[(r"this->%s = val;" % n, "K_PARAM_ASSIGN(self->%s, val);" % n, 1), (r"\bthis->", "self->", (1, 6)),
                         (r"\bfalse\b", "0", (0, 3)), (r"\btrue\b", "1", (0, 3))]) for n, t in PMRT_PARAMS]
KERNELS += KERNELS_T


def extra_gen(repo, gen_dir, metas):
    h = extract.strip_comments(open(os.path.join(repo, "src/include/stir/recon_buildblock/ProjMatrixByBin.h")).read())
    vals = {}
    for nm in ("tang_pos_bits", "axial_pos_bits", "timing_pos_bits"):
        m = re.findall(r"const CacheKey %s = (\d+);" % nm, h)
        if len(m) != 1:
            raise extract.ExtractionError("ProjMatrixByBin.h: constant %s not found exactly once" % nm)
        vals[nm] = int(m[0])
    if not re.search(r"typedef std::uint64_t CacheKey;", h):
        raise extract.ExtractionError("ProjMatrixByBin.h: CacheKey is no longer std::uint64_t")
    with open(os.path.join(gen_dir, "c03_consts.h"), "w") as f:
        for k, v in vals.items():
            f.write("#define %s %dL\n" % (k, v))
    # the cache is a map per [view][segment] keyed by cache_key(bin): supporting static fact for "key + bucket identifies the bin"
    cxx = extract.strip_comments(open(os.path.join(repo, "src/recon_buildblock/ProjMatrixByBin.cxx")).read())
    n_ins = len(re.findall(r"cache_collection\[bin\.view_num\(\)\]\[bin\.segment_num\(\)\]\.insert\(\s*MapProjMatrixElemsForOneBin::value_type\(cache_key\(bin\), probabilities\)\)", cxx))
    n_find = len(re.findall(r"cache_collection\[bin\.view_num\(\)\]\[bin\.segment_num\(\)\]\.find\(cache_key\(bin\)\)", cxx))
    if n_ins != 1 or n_find != 1:
        raise extract.ExtractionError("ProjMatrixByBin.cxx: cache insert/find no longer keyed by [view][segment] + cache_key(bin) (%d/%d)" % (n_ins, n_find))
    metas.append({"kernel": "constants", "file": "src/include/stir/recon_buildblock/ProjMatrixByBin.h", "function": "cache key bit widths", "values": vals})
    if len(OP_CLASSES) != 16:
        raise extract.ExtractionError("SymmetryOperations_PET_CartesianGrid.inl: %d operation classes with transform_bin_coordinates found (expected 16)" % len(OP_CLASSES))
    hdr = extract.strip_comments(open(os.path.join(repo, "src/include/stir/recon_buildblock/SymmetryOperations_PET_CartesianGrid.h")).read())
    for c in OP_CLASSES:
        # constructor parameter order (num_views, axial_pos_shift, z_shift[, q]) resp. (axial_pos_shift, z_shift) for z_shift: the MKOP macros rely on it
        m = re.search(r"SymmetryOperation_PET_CartesianGrid_%s\(([^)]*)\)\s*:" % c, hdr)
        if not m:
            raise extract.ExtractionError("constructor of SymmetryOperation_PET_CartesianGrid_%s not found" % c)
        names = [a.split()[-1] for a in m.group(1).split(",")]
        want = ["axial_pos_shift", "z_shift"] if c == "z_shift" else ["num_views", "axial_pos_shift", "z_shift"]
        if names[:len(want)] != want or (len(names) > len(want) and names[len(want):] != ["q"]):
            raise extract.ExtractionError("constructor parameters of SymmetryOperation_PET_CartesianGrid_%s changed: %s" % (c, names))
    with open(os.path.join(gen_dir, "c03_ops.h"), "w") as f:
        f.write("enum { OP_trivial" + "".join(", OP_%s" % c for c in OP_CLASSES) + " };\n")
    with open(os.path.join(gen_dir, "c03_dispatch.c"), "w") as f:
        f.write("/* generated: virtual dispatch of SymmetryOperation::transform_bin_coordinates over the %d classes of the .inl (+ TrivialSymmetryOperation: identity) */\n" % len(OP_CLASSES))
        for c in OP_CLASSES:
            f.write('#define CONTRACT_K_op_%s_bin\n#include "K_op_%s_bin.c"\n' % (c, c))
        f.write("void K_op_transform_bin(const struct OP* op, struct Bin* b)\n{\n  switch (op->kind)\n    {\n    case OP_trivial: break;\n")
        for c in OP_CLASSES:
            f.write("    case OP_%s: K_op_%s_bin(op, b); break;\n" % (c, c))
        f.write('    default: __CPROVER_assert(0, "unknown operation class"); break;\n    }\n}\n')
    with open(os.path.join(gen_dir, "c03_img.c"), "w") as f:
        f.write("/* generated: one enforce harness and one injectivity lemma per operation class (transform_image_coordinates) */\n")
        for c in OP_CLASSES:
            # the class NAME states the map (swap_<x part>_<y part>[_zq]: 'xmy' = x <- minus y, 'yx' = y <- x, 'zq' = z <- q - z): the contract
            # of each class is generated from its name, the body must agree with it
            toks = [] if c == "z_shift" else c[len("swap_"):].split("_")
            known = {"xmx": ("x", "-X"), "xy": ("x", "Y"), "xmy": ("x", "-Y"), "ymy": ("y", "-Y"), "yx": ("y", "X"), "ymx": ("y", "-X"), "zq": ("z", "Q")}
            spec = {"x": "X", "y": "Y", "z": "Z"}
            for t in toks:
                if t not in known or spec[known[t][0]] != known[t][0].upper():
                    raise extract.ExtractionError("operation class name %s: token '%s' not understood" % (c, t))
                spec[known[t][0]] = known[t][1]
            ex = {"X": "__CPROVER_old(c->x)", "-X": "-__CPROVER_old(c->x)", "Y": "__CPROVER_old(c->y)", "-Y": "-__CPROVER_old(c->y)"}
            zexp = "op->q - __CPROVER_old(c->z) + op->z_shift" if spec["z"] == "Q" else "__CPROVER_old(c->z) + op->z_shift"
            f.write("#define CONTRACT_K_op_%s_img CONTRACT_K_op_img __CPROVER_ensures(c->x == %s && c->y == %s && c->z == %s)\n" % (c, ex[spec["x"]], ex[spec["y"]], zexp))
            f.write('#include "K_op_%s_img.c"\n' % c)
            f.write("void h_K_op_%s_img(void) { struct OP* o; struct C3* c; g_n = nondet_int(); K_op_%s_img(o, c); }\n" % (c, c))
            f.write("void h_lemma_img_injective_%s(void) { LEMMA_IMG_INJECTIVE(K_op_%s_img); }\n" % (c, c))
    metas.append({"kernel": "operation classes", "file": OPS_INL, "function": "SymmetryOperation_PET_CartesianGrid_* (transform_bin_coordinates)", "values": OP_CLASSES})
    STATIC_FACTS[:] = ["cache_collection is indexed [view][segment] and keyed by cache_key(bin) at its single insert and single find site (syntactic scan)"]


STATIC_FACTS = []


def jobs(tier, gen_dir):
    out = [
        Job("c03/K_cache_key", HARNESS, "h_K_cache_key", enforce="K_cache_key", kernels=["K_cache_key"], timeout=120, min_obligations=5,
            flags=["--signed-overflow-check", "--undefined-shift-check", "--conversion-check"], no_base_flags=True),
        Job("c03/lemma_key_injective", HARNESS, "h_lemma_key_injective", replace=["K_cache_key"], kind="lemma", kernels=["K_cache_key"],
            timeout=120, min_obligations=2, no_base_flags=True),
        Job("c03/canary/K_cache_key", HARNESS, "h_K_cache_key", enforce="K_cache_key", kernels=["K_cache_key"], timeout=120, kind="canary",
            defines={"CANARY_K_cache_key": None}, expect_fail=r"K_cache_key\.postcondition", no_base_flags=True),
        Job("c03/canary/lemma_key_injective", HARNESS, "h_lemma_key_injective", replace=["K_cache_key"], kind="canary", kernels=["K_cache_key"],
            timeout=120, defines={"LEMMA_CANARY": None}, expect_fail=r"vacuity canary", no_base_flags=True),
    ]
    repl = ["K_row_erase", "K_row_set_bin", "K_find_symmetry_operation_from_basic_bin", "K_get_cached", "K_cache_insert", "K_calculate",
            "K_apply_tof_kernel", "K_transform_row"]
    k = "K_get_proj_matrix_elems_for_one_bin"
    out.append(Job("c03/" + k, HARNESS, "h_" + k, enforce=k, replace=repl, kernels=[k], timeout=120, min_obligations=5, no_base_flags=True,
                   flags=["--pointer-check"], object_bits=12))
    out.append(Job("c03/canary/" + k, HARNESS, "h_" + k, enforce=k, replace=repl, kernels=[k], timeout=120, kind="canary",
                   defines={"CANARY_" + k: None}, expect_fail=r"%s\.postcondition" % k, no_base_flags=True, object_bits=12))
    CH = ["--signed-overflow-check", "--div-by-zero-check", "--bounds-check", "--pointer-check"]
    out.append(Job("c03/lemma_symmetry", HARNESS_B, "h_lemma_symmetry", kind="lemma", kernels=[k["name"] for k in KERNELS_B], flags=CH, no_base_flags=True,
                   replace=["K_find_transform_z", "K_num_planes_per_axial_pos"],
                   timeout=600, min_obligations=6, backend="kissat", params={"num_views": "symbolic <= 4096", "symmetry switches": "symbolic (all valid combinations)"}))
    out.append(Job("c03/canary/lemma_symmetry", HARNESS_B, "h_lemma_symmetry", kind="canary", kernels=[], defines={"LEMMA_CANARY": None}, flags=[], no_base_flags=True,
                   replace=["K_find_transform_z", "K_num_planes_per_axial_pos"],
                   expect_fail=r"vacuity canary", timeout=600, backend="kissat"))
    for c in OP_CLASSES:
        k = "K_op_%s_img" % c
        out.append(Job("c03/" + k, HARNESS_I, "h_" + k, enforce=k, kernels=[k], flags=CH, no_base_flags=True, timeout=120, min_obligations=3, backend="kissat"))
        out.append(Job("c03/lemma_img_injective/" + c, HARNESS_I, "h_lemma_img_injective_" + c, kind="lemma", kernels=[k], flags=CH, no_base_flags=True, timeout=120,
                       min_obligations=1, backend="kissat", defines={"CONTRACTS_OFF": None}))
    for n in ([2, 3, 4] if tier == "quick" else [2, 3, 4, 5, 6, 7]):  # n=8 does not finish in 900 s (MiniSat)
        out.append(Job("c03/K_rt_first_ray/n=%d" % n, HARNESS_I, "h_K_rt_first_ray", enforce="K_rt_first_ray", kernels=["K_rt_first_ray"], no_base_flags=True,
                       flags=["--float-overflow-check", "--nan-check"], timeout=900, min_obligations=2, backend="sat", defines={"C03_NRAYS": n}, params={"num_tangential_LORs": n}))
    out.append(Job("c03/canary/K_rt_first_ray", HARNESS_I, "h_K_rt_first_ray", enforce="K_rt_first_ray", kernels=["K_rt_first_ray"], kind="canary",
                   defines={"CANARY_K_rt_first_ray": None, "C03_NRAYS": 2}, expect_fail=r"K_rt_first_ray\.postcondition", no_base_flags=True, timeout=300))
    out.append(Job("c03/K_sym_ctor_init", HARNESS_I, "h_K_sym_ctor_init", enforce="K_sym_ctor_init", kernels=["K_sym_ctor_init"], flags=CH, no_base_flags=True, timeout=120,
                   min_obligations=3, backend="kissat"))
    out.append(Job("c03/K_sym_ctor_flags", HARNESS_I, "h_K_sym_ctor_flags", enforce="K_sym_ctor_flags", kernels=["K_sym_ctor_flags"], flags=CH, no_base_flags=True, timeout=120,
                   min_obligations=3, backend="kissat", loop_contracts=True))
    out.append(Job("c03/lemma_sym_valid", HARNESS_I, "h_lemma_sym_valid", kind="lemma", kernels=["K_sym_ctor_init", "K_sym_ctor_flags"], replace=["K_sym_ctor_init", "K_sym_ctor_flags"],
                   flags=CH, no_base_flags=True, timeout=120, min_obligations=2, backend="kissat"))
    out.append(Job("c03/canary/K_sym_ctor_flags", HARNESS_I, "h_K_sym_ctor_flags", enforce="K_sym_ctor_flags", kernels=["K_sym_ctor_flags"], kind="canary", loop_contracts=True,
                   defines={"CANARY_K_sym_ctor_flags": None}, expect_fail=r"K_sym_ctor_flags\.postcondition", no_base_flags=True, timeout=120))
    HS = os.path.join(VERIF, "harness", "c03s.c")
    out.append(Job("c03/K_pm_clear_cache", HS, "h_K_pm_clear_cache", enforce="K_pm_clear_cache", kernels=["K_pm_clear_cache"], flags=CH, no_base_flags=True, timeout=120, min_obligations=3,
                   backend="kissat", loop_contracts=True, replace=["BUCKET_ROW_min", "BUCKET_ROW_max"]))
    out.append(Job("c03/K_pm_set_up_cache", HS, "h_K_pm_set_up_cache", enforce="K_pm_set_up_cache", kernels=["K_pm_set_up_cache"], flags=CH, no_base_flags=True, timeout=120, min_obligations=3,
                   backend="kissat", loop_contracts=True, replay="setup"))
    out.append(Job("c03/K_pmrt_set_up_skip", HS, "h_K_pmrt_set_up_skip", enforce="K_pmrt_set_up_skip", kernels=["K_pmrt_set_up_skip"], flags=CH, no_base_flags=True, timeout=120, min_obligations=2,
                   backend="kissat", replace=["K_pm_clear_cache"], replay="setup"))
    out.append(Job("c03/K_pmrt_set_up_tail", HS, "h_K_pmrt_set_up_tail", enforce="K_pmrt_set_up_tail", kernels=["K_pmrt_set_up_tail"], flags=CH, no_base_flags=True, timeout=120, min_obligations=2,
                   backend="kissat", replace=["K_pm_clear_cache"], replay="setup"))
    HT = os.path.join(VERIF, "harness", "c03t.c")
    for k in KERNELS_T:
        out.append(Job("c03/" + k["name"], HT, "h_" + k["name"], enforce=k["name"], kernels=[k["name"]], flags=CH, no_base_flags=True, timeout=120, min_obligations=2, backend="kissat",
                       replay="setup"))
    out.append(Job("c03/canary/K_pmrt_set_do_symmetry_swap_s", HT, "h_K_pmrt_set_do_symmetry_swap_s", enforce="K_pmrt_set_do_symmetry_swap_s", kernels=["K_pmrt_set_do_symmetry_swap_s"],
                   kind="canary", defines={"CANARY_PMRT_SETTERS": None}, expect_fail=r"K_pmrt_set_do_symmetry_swap_s\.postcondition", no_base_flags=True, timeout=120))
    out.append(Job("c03/canary/K_pm_clear_cache", HS, "h_K_pm_clear_cache", enforce="K_pm_clear_cache", kernels=["K_pm_clear_cache"], kind="canary", loop_contracts=True,
                   replace=["BUCKET_ROW_min", "BUCKET_ROW_max"], defines={"CANARY_K_pm_clear_cache": None}, expect_fail=r"K_pm_clear_cache\.postcondition", no_base_flags=True, timeout=120))
    out.append(Job("c03/canary/K_op_swap_xy_yx_img", HARNESS_I, "h_K_op_swap_xy_yx_img", enforce="K_op_swap_xy_yx_img", kernels=["K_op_swap_xy_yx_img"], kind="canary",
                   defines={"CANARY_K_op_swap_xy_yx_img": None}, expect_fail=r"K_op_swap_xy_yx_img\.postcondition", no_base_flags=True, timeout=120))
    out.append(Job("c03/canary/lemma_img_injective", HARNESS_I, "h_lemma_img_injective_swap_xy_yx", kind="canary", kernels=[], defines={"LEMMA_CANARY": None, "CONTRACTS_OFF": None},
                   flags=[], no_base_flags=True, expect_fail=r"vacuity canary", timeout=120))
    return out


TRUSTED = [
    "ASSUMED contracts in the cache-protocol job: calculate_proj_matrix_elems_for_one_bin, apply_tof_kernel, SymmetryOperation::transform_proj_matrix_elems_for_one_bin, std::unordered_map find/insert; find_symmetry_operation_from_basic_bin is abstract there and decided by the job lemma_symmetry",
    "lemma_symmetry: SYM_VALID and 'TOF data => only the z-shift symmetry' as established by the constructor (read from the source); virtual dispatch = generated switch over the scraped class list; image-side quantities (transform_z, planes per axial position) arbitrary",
    "std::unordered_map: find(k) returns the value inserted under k in the same [view][segment] bucket; with cache_key injective this is the row of the same bin",
    "history quantifier: induction over requests using the cache invariant CACHED_CONTENT_OK (argued, not machine-checked)",
]
ASSUMPTIONS = ["rows are abstract content ids; equality of float values of symmetry-related rows is NOT decided"]
UNDECIDED_CLAUSES = ["row values equal up to rounding between direct and symmetry-derived computation", "non-negativity of elements",
                     "voxels inside the image / no duplicate voxel (transform_image_coordinates of the operations: not under contract)",
                     "clear_cache / set_up again"]


def param_summary(tier):
    return {"bins": "fully symbolic within the cache-key domain", "cache modes": "disabled / basic-only / full, symbolic"}


# ---------------- native replay of the symmetry lemma (real libraries; driver shared with C06) ----------------
from vlib import native


def _tf(v, key, d):
    return next((1 if str(val).upper().startswith("T") else 0 for k, val in v.items() if k.endswith(key)), d)


def replay(job, o, workroot, repo):
    if "K_pm_" in job.name or "K_pmrt_" in job.name:
        exe = os.path.join(workroot, "c03_rows_replay")
        if not os.path.exists(exe):
            exe, info = native.build(repo, os.path.join(VERIF, "replay", "c03_rows.cpp"), exe)
            if not exe:
                return {"status": "unavailable", "detail": "replay driver did not build: " + info}
        st, detail = native.run(exe, ["setup"], timeout=1200)
        if st == "confirmed":
            return {"status": "confirmed", "detail": detail, "command": "c03_rows_replay setup", "from_verifier_counterexample": False}
        return {"status": "not-reproduced", "detail": "c03_rows_replay setup: 4 histories of set_up calls against a freshly set-up matrix (" + str(detail)[:100] + ")"}
    if "K_rt_first_ray" in job.name or "_img" in job.name or "img_" in job.name:
        exe = os.path.join(workroot, "c03_rows_replay")
        if not os.path.exists(exe):
            exe, info = native.build(repo, os.path.join(VERIF, "replay", "c03_rows.cpp"), exe)
            if not exe:
                return {"status": "unavailable", "detail": "replay driver did not build: " + info}
        st, detail = native.run(exe, [], timeout=1200)
        if st == "confirmed":
            return {"status": "confirmed", "detail": detail, "command": "c03_rows_replay", "from_verifier_counterexample": False}
        return {"status": "not-reproduced", "detail": "c03_rows_replay: direct vs symmetry-derived rows, 1..4 tangential rays, 5 symmetry sets (" + str(detail)[:100] + ")"}
    if "symmetry" not in job.name:
        return {"status": "unavailable", "detail": "no native replay routine for this job (abstract row ids)"}
    exe = os.path.join(workroot, "c06_replay")
    if not os.path.exists(exe):
        exe, info = native.build(repo, os.path.join(VERIF, "replay", "c06.cpp"), exe)
        if not exe:
            return {"status": "unavailable", "detail": "replay driver did not build: " + info}
    v = o.get("inputs", {})
    cands = []
    nvm = re.match(r"^-?\d+", str(v.get("h:s.num_views", "")))
    if nvm and 1 <= int(nvm.group(0)) <= 128:
        cands.append(["symop", int(nvm.group(0)), 0, 2, _tf(v, "do_symmetry_90degrees_min_phi", 0), _tf(v, "do_symmetry_180degrees_min_phi", 0),
                      _tf(v, "do_symmetry_swap_segment", 0), _tf(v, "do_symmetry_swap_s", 0), _tf(v, "do_symmetry_shift_z", 0)])
    for nv in (8, 12, 6, 16):
        for fl in ((1, 1, 1, 1, 1), (0, 1, 1, 1, 1), (0, 0, 1, 1, 1), (0, 1, 0, 1, 0), (1, 1, 0, 0, 1), (0, 0, 0, 1, 0), (0, 0, 0, 0, 0)):
            cands.append(["symop", nv, 0, 2] + list(fl))
    for c in cands:
        st, detail = native.run(exe, c, timeout=900)
        if st == "confirmed":
            return {"status": "confirmed", "detail": detail, "command": "c06_replay " + " ".join(map(str, c)), "from_verifier_counterexample": c is cands[0] and bool(nvm)}
    return {"status": "not-reproduced", "detail": "%d native runs (every bin of each configuration)" % len(cands)}
