"""C03 - system-matrix rows independent of symmetries/caching/history: index and bookkeeping core (DESIGN.md section 6, C03)."""
import os
import re

from vlib.runner import Job
from vlib import extract

VERIF = os.path.dirname(os.path.dirname(os.path.abspath(__file__)))
HARNESS = os.path.join(VERIF, "harness", "c03.c")

KERNELS = [
    dict(name="K_cache_key", file="src/recon_buildblock/ProjMatrixByBin.cxx", func=r"ProjMatrixByBin::cache_key\(const Bin& bin\) const",
         cxx_name="ProjMatrixByBin::cache_key", c_header="CacheKey K_cache_key(const struct Bin* bin)", loops=0,
         rules=[(r"\bbin\.(axial_pos_num|tangential_pos_num|timing_pos_num)\(\)", r"bin->\1", 9),
                (r"static_cast<CacheKey>\(", "CAST(CacheKey, ", 13)]),
    dict(name="K_get_proj_matrix_elems_for_one_bin", file="src/include/stir/recon_buildblock/ProjMatrixByBin.inl",
         func=r"ProjMatrixByBin::get_proj_matrix_elems_for_one_bin\(ProjMatrixElemsForOneBin& probabilities, const Bin& bin\) const",
         cxx_name="ProjMatrixByBin::get_proj_matrix_elems_for_one_bin",
         c_header="void K_get_proj_matrix_elems_for_one_bin(const struct PM* self, struct Row* probabilities, const struct Bin* bin)",
         loops=0,
         rules=[(r"probabilities\.erase\(\);", "K_row_erase(probabilities);", 1),
                (r"Bin basic_bin = bin;", "struct Bin basic_bin = *bin;", 2),
                (r"unique_ptr<SymmetryOperation> symm_ptr = symmetries_sptr->find_symmetry_operation_from_basic_bin\(basic_bin\);",
                 "int symm_ptr = K_find_symmetry_operation_from_basic_bin(&basic_bin);", 2),
                (r"probabilities\.set_bin\(basic_bin\);", "K_row_set_bin(probabilities, &basic_bin);", 2),
                (r"probabilities\.set_bin\(bin\);", "K_row_set_bin(probabilities, bin);", 1),
                (r"get_cached_proj_matrix_elems_for_one_bin\(probabilities\) == Succeeded::no", "K_get_cached(self, probabilities) == 0", 3),
                (r"(?<!get_)(?<!K_)\bcalculate_proj_matrix_elems_for_one_bin\(probabilities\);", "K_calculate(self, probabilities);", 2),
                (r"proj_data_info_sptr->is_tof_data\(\)", "self->tof_data", 2),
                (r"\bapply_tof_kernel\(probabilities\);", "K_apply_tof_kernel(self, probabilities);", 2),
                (r"(?<!get_)\bcache_proj_matrix_elems_for_one_bin\(probabilities\);", "K_cache_insert(self, probabilities);", 2),
                (r"symm_ptr->transform_proj_matrix_elems_for_one_bin\(probabilities\);", "K_transform_row(symm_ptr, probabilities);", 2),
                (r"\bthis->", "self->", None),
                (r"(?<![\w>.])(cache_stores_only_basic_bins|cache_disabled|tof_enabled)\b", r"self->\1", (1, 99))]),
]


def extra_gen(repo, gen_dir, metas):
    h = extract.strip_comments(open(os.path.join(repo, "src/include/stir/recon_buildblock/ProjMatrixByBin.h")).read())
    vals = {}
    for nm in ("tang_pos_bits", "axial_pos_bits", "timing_pos_bits"):
        m = re.findall(r"const CacheKey %s = (\d+);" % nm, h)
        if len(m) != 1:
            raise extract.ExtractionError("ProjMatrixByBin.h: constant %s not found exactly once" % nm)
        vals[nm] = int(m[0])
    if not re.search(r"typedef std::uint64_t CacheKey;", h):
        raise extract.ExtractionError("ProjMatrixByBin.h: CacheKey is no longer std::uint64_t")
    with open(os.path.join(gen_dir, "c03_consts.h"), "w") as f:
        for k, v in vals.items():
            f.write("#define %s %dL\n" % (k, v))
    # the cache is a map per [view][segment] keyed by cache_key(bin): supporting static fact for "key + bucket identifies the bin"
    cxx = extract.strip_comments(open(os.path.join(repo, "src/recon_buildblock/ProjMatrixByBin.cxx")).read())
    n_ins = len(re.findall(r"cache_collection\[bin\.view_num\(\)\]\[bin\.segment_num\(\)\]\.insert\(\s*MapProjMatrixElemsForOneBin::value_type\(cache_key\(bin\), probabilities\)\)", cxx))
    n_find = len(re.findall(r"cache_collection\[bin\.view_num\(\)\]\[bin\.segment_num\(\)\]\.find\(cache_key\(bin\)\)", cxx))
    if n_ins != 1 or n_find != 1:
        raise extract.ExtractionError("ProjMatrixByBin.cxx: cache insert/find no longer keyed by [view][segment] + cache_key(bin) (%d/%d)" % (n_ins, n_find))
    metas.append({"kernel": "constants", "file": "src/include/stir/recon_buildblock/ProjMatrixByBin.h", "function": "cache key bit widths", "values": vals})
    STATIC_FACTS[:] = ["cache_collection is indexed [view][segment] and keyed by cache_key(bin) at its single insert and single find site (syntactic scan)"]


STATIC_FACTS = []


def jobs(tier, gen_dir):
    out = [
        Job("c03/K_cache_key", HARNESS, "h_K_cache_key", enforce="K_cache_key", kernels=["K_cache_key"], timeout=120, min_obligations=5,
            flags=["--signed-overflow-check", "--undefined-shift-check", "--conversion-check"], no_base_flags=True),
        Job("c03/lemma_key_injective", HARNESS, "h_lemma_key_injective", replace=["K_cache_key"], kind="lemma", kernels=["K_cache_key"],
            timeout=120, min_obligations=2, no_base_flags=True),
        Job("c03/canary/K_cache_key", HARNESS, "h_K_cache_key", enforce="K_cache_key", kernels=["K_cache_key"], timeout=120, kind="canary",
            defines={"CANARY_K_cache_key": None}, expect_fail=r"K_cache_key\.postcondition", no_base_flags=True),
        Job("c03/canary/lemma_key_injective", HARNESS, "h_lemma_key_injective", replace=["K_cache_key"], kind="canary", kernels=["K_cache_key"],
            timeout=120, defines={"LEMMA_CANARY": None}, expect_fail=r"vacuity canary", no_base_flags=True),
    ]
    repl = ["K_row_erase", "K_row_set_bin", "K_find_symmetry_operation_from_basic_bin", "K_get_cached", "K_cache_insert", "K_calculate",
            "K_apply_tof_kernel", "K_transform_row"]
    k = "K_get_proj_matrix_elems_for_one_bin"
    out.append(Job("c03/" + k, HARNESS, "h_" + k, enforce=k, replace=repl, kernels=[k], timeout=120, min_obligations=5, no_base_flags=True,
                   flags=["--pointer-check"], object_bits=12))
    out.append(Job("c03/canary/" + k, HARNESS, "h_" + k, enforce=k, replace=repl, kernels=[k], timeout=120, kind="canary",
                   defines={"CANARY_" + k: None}, expect_fail=r"%s\.postcondition" % k, no_base_flags=True, object_bits=12))
    return out


TRUSTED = [
    "ASSUMED contracts (not verified here): calculate_proj_matrix_elems_for_one_bin, apply_tof_kernel, SymmetryOperation::transform_proj_matrix_elems_for_one_bin, find_symmetry_operation_from_basic_bin (basic bin is a fixed point with the trivial operation), std::unordered_map find/insert",
    "std::unordered_map: find(k) returns the value inserted under k in the same [view][segment] bucket; with cache_key injective this is the row of the same bin",
    "history quantifier: induction over requests using the cache invariant CACHED_CONTENT_OK (argued, not machine-checked)",
]
ASSUMPTIONS = ["rows are abstract content ids; equality of float values of symmetry-related rows is NOT decided"]
UNDECIDED_CLAUSES = ["row values equal up to rounding between direct and symmetry-derived computation", "non-negativity of elements",
                     "voxels inside the image / no duplicate voxel (needs the 17 symmetry operations under contract: K03b, not built)",
                     "clear_cache / set_up again"]


def param_summary(tier):
    return {"bins": "fully symbolic within the cache-key domain", "cache modes": "disabled / basic-only / full, symbolic"}
